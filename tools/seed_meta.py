#!/usr/bin/env python3
"""tools/seed_meta.py [--run] [ID...]

Writes /verif/seeded/<ID>/meta.json from the seed's notes.md and confirm.log.
With --run, additionally applies each patch to /repo (git apply), runs the listed checks
(quick tier of the seed's own property plus any in EXTRA), records which of them report a
violation, and reverts /repo (git checkout -- .) straight afterwards.
Nothing is ever committed to /repo by this tool.
"""
import json, os, re, subprocess, sys

ROOT = "/verif/seeded"
# further checks worth running against a seed (same code, other property)
EXTRA = {"C03b": ["C06"], "C30": ["C26"], "C13": ["C02"], "C02": ["C13"], "C28": ["C15"], "C15": ["C28"]}
# tier in which the seed's own check is expected to report (default quick)
TIER = {}


def section(notes, *titles):
    for t in titles:
        m = re.search(r"^## [^\n]*" + t + r"[^\n]*\n(.*?)(?=^## |\Z)", notes, re.S | re.M | re.I)
        if m:
            return m.group(1).strip()
    return ""


def main():
    args = sys.argv[1:]
    run = "--run" in args
    ids = [a for a in args if not a.startswith("--")] or sorted(os.listdir(ROOT))
    for i in ids:
        d = os.path.join(ROOT, i)
        if not os.path.isfile(os.path.join(d, "patch.diff")):
            continue
        notes = open(os.path.join(d, "notes.md")).read() if os.path.exists(os.path.join(d, "notes.md")) else ""
        log = open(os.path.join(d, "confirm.log")).read() if os.path.exists(os.path.join(d, "confirm.log")) else ""
        m = re.search(r"SEED \S+: demo-without=(\d+) demo-with=(\d+) tests-with=(\d+)", log)
        meta_path = os.path.join(d, "meta.json")
        meta = json.load(open(meta_path)) if os.path.exists(meta_path) else {}
        title = notes.split("\n", 1)[0].lstrip("# ").strip()
        files = re.findall(r"^\+\+\+ b/(\S+)", open(os.path.join(d, "patch.diff")).read(), re.M)
        meta.update({
            "property_id": re.match(r"C\d+", i).group(0),
            "title": title,
            "files_changed": files,
            "breaks": section(notes, "Which part of the property")[:1500],
            "needs_to_manifest": section(notes, "What it needs")[:2500],
            "demonstration": "demo/run.sh <worktree> (exit 0 = property holds, non-zero = broken); see notes.md",
            "confirmed_by_me": {
                "how": "tools/confirm_seed.sh %s: in a scratch worktree of /repo, ran demo/run.sh without the patch, with the patch, and `cargo test --workspace --no-fail-fast --offline` with the patch; the worktree was removed afterwards" % i,
                "demo_exit_without_patch": int(m.group(1)) if m else None,
                "demo_exit_with_patch": int(m.group(2)) if m else None,
                "existing_tests_exit_with_patch": int(m.group(3)) if m else None,
            },
        })
        if run:
            r = subprocess.run(["git", "-C", "/repo", "apply", "--check", os.path.join(d, "patch.diff")], capture_output=True, text=True)
            if r.returncode != 0:
                meta["checks_run"] = {"error": "patch no longer applies to /repo HEAD: " + r.stderr.strip()[:300]}
            else:
                subprocess.run(["git", "-C", "/repo", "apply", os.path.join(d, "patch.diff")], check=True)
                res = {}
                try:
                    own = re.match(r"C\d+", i).group(0)
                    for c in [own] + EXTRA.get(i, []):
                        tier = TIER.get(i, "quick") if c == own else "quick"
                        p = subprocess.run(["/verif/check", c, tier], capture_output=True, text=True)
                        fl = [l for l in p.stdout.splitlines() if l.startswith("FAILURE")]
                        res[f"{c} {tier}"] = {"exit": p.returncode, "caught": p.returncode == 1, "first_failure": fl[0][:400] if fl else ""}
                        print(f"SEED {i}: ./check {c} {tier} -> exit {p.returncode} {'CAUGHT' if p.returncode == 1 else 'MISSED' if p.returncode == 0 else 'ERROR'}", flush=True)
                finally:
                    subprocess.run(["git", "-C", "/repo", "checkout", "--", "."], check=True)
                head = subprocess.run(["git", "-C", "/repo", "rev-parse", "--short", "HEAD"], capture_output=True, text=True).stdout.strip()
                meta["checks_run"] = {"repo_head": head, "how": "git -C /repo apply patch.diff; ./check <ID> <tier>; git -C /repo checkout -- .", "results": res}
        json.dump(meta, open(meta_path, "w"), indent=1)
        open(meta_path, "a").write("\n")
        print(f"wrote {meta_path}")


main()
