#!/usr/bin/env python3
"""Development aid: minimise a WIT text while a predicate command keeps printing a marker.

usage: wit_ddmin.py <in.wit> <marker-regex> <out.wit> -- <cmd with {} for the wit path>

The command is run with the candidate WIT; the candidate is kept when its combined
output matches the marker regex.  Candidates are produced by deleting lines, brace
blocks, comma-separated items and replacing type expressions by `bool`.
Used only while triaging findings; no registered check depends on it.
"""
import re, subprocess, sys, tempfile, os

def run(cmd, path):
    c = [a.replace("{}", path) for a in cmd]
    p = subprocess.run(c, stdout=subprocess.PIPE, stderr=subprocess.STDOUT, text=True)
    return p.stdout

def main():
    src, marker, out = sys.argv[1:4]
    cmd = sys.argv[sys.argv.index("--") + 1:]
    text = open(src).read()
    rx = re.compile(marker)
    tmp = tempfile.mkdtemp()
    cand_path = os.path.join(tmp, "c.wit")
    tried = 0

    def ok(t):
        nonlocal tried
        tried += 1
        open(cand_path, "w").write(t)
        return rx.search(run(cmd, cand_path)) is not None

    assert ok(text), "the input does not show the marker"
    # strip doc comments first
    t2 = "\n".join(l for l in text.split("\n") if not l.strip().startswith("///"))
    if ok(t2):
        text = t2
    changed = True
    while changed:
        changed = False
        lines = text.split("\n")
        # 1. delete brace blocks (line ending in `{` to its matching `}`) and single lines
        n = len(lines)
        chunk = max(n // 2, 1)
        while chunk >= 1:
            i = 0
            while i < len(lines):
                cand = lines[:i] + lines[i + chunk:]
                if cand != lines and ok("\n".join(cand)):
                    lines = cand
                    changed = True
                else:
                    i += chunk
            chunk //= 2
        # blocks
        i = 0
        while i < len(lines):
            if lines[i].rstrip().endswith("{"):
                depth = 0
                for j in range(i, len(lines)):
                    depth += lines[j].count("{") - lines[j].count("}")
                    if depth == 0:
                        break
                cand = lines[:i] + lines[j + 1:]
                if ok("\n".join(cand)):
                    lines = cand
                    changed = True
                    continue
            i += 1
        text = "\n".join(lines)
        # 2. delete comma separated items inside parentheses / angle brackets
        pos = 0
        while True:
            m = re.search(r"[(<,]\s*([^(),<>]+?)\s*(?=[,)>])", text[pos:])
            if not m:
                break
            s, e = pos + m.start(1), pos + m.end(1)
            # remove the item together with one adjacent comma
            before, after = text[:s], text[e:]
            if after.lstrip().startswith(","):
                cand = before + after.lstrip()[1:].lstrip()
            elif before.rstrip().endswith(","):
                cand = before.rstrip()[:-1] + after
            else:
                cand = None
            if cand and ok(cand):
                text = cand
                changed = True
            else:
                pos = e
        # 3. replace type expressions `name<...>` by their argument or by bool
        pos = 0
        while True:
            m = re.search(r"\b(list|option|tuple|result|future|stream|map|borrow)<", text[pos:])
            if not m:
                break
            s = pos + m.start()
            k = pos + m.end()
            depth = 1
            while k < len(text) and depth:
                depth += {"<": 1, ">": -1}.get(text[k], 0)
                k += 1
            inner = text[pos + m.end():k - 1]
            done = False
            for rep in ("bool", inner):
                cand = text[:s] + rep + text[k:]
                if "," in rep and rep is inner:
                    continue
                if ok(cand):
                    text = cand
                    changed = True
                    done = True
                    break
            if not done:
                pos = s + 1
    open(out, "w").write(text)
    print(f"minimised to {len(text)} bytes after {tried} runs -> {out}")

main()
