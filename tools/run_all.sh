#!/bin/bash
# tools/run_all.sh <quick|thorough> [ID...] — run the registered checks one after the other and
# print one line per check (exit status, wall time, summary); used before committing evidence.
tier=${1:-quick}; shift
ids=${@:-$(python3 -c "import json;print(' '.join(c['property_id'] for c in json.load(open('/verif/MANIFEST.json'))['checks']))")}
cd /verif
for id in $ids; do
  s=$(date +%s)
  out=$(./check $id $tier 2>&1); rc=$?
  echo "$id rc=$rc $(( $(date +%s) - s ))s $(echo "$out" | grep -E '^SUMMARY' | tail -1 | cut -c1-170)"
  echo "$out" | grep -E "^VIOLATION|^FAILURE|HARNESS" | head -4 | cut -c1-400
done
