#!/bin/bash
# Creates /verif/target/rust-src/library: a copy of the nightly rust-src `library/`
# without the (uncached) dlmalloc dependency, so that -Zbuild-std=core,alloc works
# offline for wasm32-unknown-unknown. Idempotent.
set -eu
DST=/verif/target/rust-src
[ -f "$DST/.done" ] && exit 0
SRC="$(rustc +nightly --print sysroot)/lib/rustlib/src/rust/library"
rm -rf "$DST"; mkdir -p "$DST"
cp -r "$SRC" "$DST/library"
python3 - "$DST/library" <<'PY'
import re,sys
root=sys.argv[1]
p=root+'/std/Cargo.toml'
s=open(p).read()
s=re.sub(r"\[target\.'cfg\(any\(all\(target_family = \"wasm\"[^\n]*\n(dlmalloc[^\n]*\n)", "", s)
assert 'dlmalloc' not in s, "dlmalloc stanza not removed"
open(p,'w').write(s)
p=root+'/Cargo.lock'
s=open(p).read()
s=re.sub(r'\[\[package\]\]\nname = "dlmalloc"\n(?:[^\n]+\n)*\n', '', s)
s=re.sub(r'^ "dlmalloc",\n', '', s, flags=re.M)
assert 'dlmalloc' not in s, "dlmalloc left in lock"
open(p,'w').write(s)
PY
touch "$DST/.done"
echo "rust-src prepared at $DST"
