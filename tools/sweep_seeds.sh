#!/bin/bash
# tools/sweep_seeds.sh "<seeds>" [ID...] — quick tier of the registered checks under several
# VERIF_SEED values; prints one line per (seed, check). Used to look for seed-dependent alarms.
seeds=$1; shift
for s in $seeds; do
  echo "=== VERIF_SEED=$s"
  VERIF_SEED=$s /verif/tools/run_all.sh quick "$@"
done
