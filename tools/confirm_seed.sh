#!/bin/bash
# tools/confirm_seed.sh <ID>  — confirm a sub-agent's seeded change in its scratch worktree:
# demo passes without the change, fails with it; existing test suite passes with it.
# Copies patch/demo/notes into /verif/seeded/<ID>/ and removes the worktree afterwards.
set -u
ID="$1"; WT=/tmp/seed-$ID/wt; SEED=/tmp/seed-$ID/SEED; OUT=/verif/seeded/$ID
mkdir -p "$OUT"; LOG="$OUT/confirm.log"; : > "$LOG"
export CARGO_NET_OFFLINE=true
cd "$WT" || exit 2
git checkout -q -- . ; git clean -fdq -e target
echo "== demo WITHOUT change" >> "$LOG"
bash "$SEED/demo/run.sh" "$WT" >> "$LOG" 2>&1; A=$?
echo "exit=$A" >> "$LOG"
git checkout -q -- . ; git clean -fdq -e target
git apply "$SEED/patch.diff" || { echo "patch does not apply" >> "$LOG"; exit 3; }
echo "== demo WITH change" >> "$LOG"
bash "$SEED/demo/run.sh" "$WT" >> "$LOG" 2>&1; B=$?
echo "exit=$B" >> "$LOG"
git checkout -q -- . ; git clean -fdq -e target; git apply "$SEED/patch.diff"
echo "== existing test suite WITH change" >> "$LOG"
cargo test --workspace --no-fail-fast --offline 2>&1 | grep -E "test result|FAILED|error(\[|:)" >> "$LOG"; C=${PIPESTATUS[0]}
echo "exit=$C" >> "$LOG"
cp "$SEED/patch.diff" "$OUT/patch.diff"; rm -rf "$OUT/demo"; cp -r "$SEED/demo" "$OUT/demo"; cp "$SEED/notes.md" "$OUT/notes.md" 2>/dev/null
echo "SEED $ID: demo-without=$A demo-with=$B tests-with=$C" | tee -a "$LOG"
cd /; git -C /repo worktree remove --force "$WT"; rm -rf /tmp/seed-$ID/wt
