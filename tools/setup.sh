#!/bin/bash
# Run once after a fresh restore (offline): build every harness binary.
set -eu
cd "$(dirname "$0")/.."
export CARGO_NET_OFFLINE=true
(cd harness && cargo build --release --workspace 2>&1 | tail -3)
echo "setup done"
