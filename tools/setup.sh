#!/bin/bash
# Run once after a fresh restore (offline): build every harness binary.
# Each binary is built with -p so that cargo feature unification matches what
# ./check builds later (no rebuild at check time).
set -eu
cd "$(dirname "$0")/.."
export CARGO_NET_OFFLINE=true
for b in $(sed -n 's/.*BIN=\([a-z0-9_]*\).*/\1/p' check | sort -u); do
  (cd harness && cargo build --release -p "$b" 2>&1 | tail -1)
done
(cd harness && cargo build --release -p asyncsim-nospawn 2>&1 | tail -1)
# the repository's CLI, used by the process-level checks (C15, C33)
env -u RUSTFLAGS cargo build --release --offline --manifest-path /repo/Cargo.toml --target-dir /verif/target/cli --bin wit-bindgen 2>&1 | tail -1
echo "setup done"
# warm the build caches of checks that compile scratch crates (C32: macro expansion)
./check C32 quick >/dev/null 2>&1 || true
# C09 builds Rust for wasm32 with -Zbuild-std from a patched copy of rust-src (dlmalloc removed);
# the first build also compiles core/alloc and the guest crate
./tools/prepare_rust_src.sh
./check C09 quick >/dev/null 2>&1 || true
echo "caches warmed"
