#!/bin/bash
# tools/try_patch.sh <patch.diff> <ID...> — apply a patch to /repo, run the quick tier of the
# given checks, revert. One line per check.
p=$1; shift
git -C /repo apply "$p" || { echo "patch does not apply"; exit 3; }
for id in "$@"; do
  out=$(/verif/check $id quick 2>&1); rc=$?
  echo "TRY $id: exit=$rc $( [ $rc = 1 ] && echo CAUGHT || ([ $rc = 0 ] && echo MISSED || echo ERROR) ) :: $(echo "$out" | grep -E '^FAILURE' | head -1 | cut -c1-300)"
  [ $rc = 2 ] && echo "$out" | tail -5 | cut -c1-400
done
git -C /repo checkout -- . 
