#!/bin/bash
# tools/mutate.sh <patch.diff> <ID> [tier]  — apply a patch to /repo, run the check, revert.
set -u
P=$(realpath "$1"); ID="$2"; TIER="${3:-quick}"
git -C /repo apply "$P" || { echo "patch does not apply"; exit 3; }
/verif/check "$ID" "$TIER"; RC=$?
git -C /repo checkout -- . 
echo "mutate: $ID exit=$RC"
exit $RC
