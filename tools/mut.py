#!/usr/bin/env python3
"""tools/mut.py FILE OLD NEW ID [ID...]  — replace OLD by NEW once in /repo/FILE (must be unique),
run ./check ID quick for each ID, then revert with git checkout. Prints one line per check."""
import sys, subprocess, re
f, old, new, ids = sys.argv[1], sys.argv[2], sys.argv[3], sys.argv[4:]
p = "/repo/" + f
s = open(p).read()
n = s.count(old)
if n != 1:
    print(f"MUT: pattern occurs {n} times in {f}; need exactly 1"); sys.exit(3)
open(p, "w").write(s.replace(old, new, 1))
try:
    for i in ids:
        r = subprocess.run(["/verif/check", i, "quick"], capture_output=True, text=True)
        fl = [l for l in r.stdout.splitlines() if l.startswith("FAILURE")]
        summ = [l for l in r.stdout.splitlines() if l.startswith("SUMMARY")]
        print(f"MUT {i}: exit={r.returncode} {'CAUGHT' if r.returncode==1 else 'MISSED' if r.returncode==0 else 'ERROR'} :: {(fl[0][:260] if fl else '')}")
        if r.returncode == 2:
            print(r.stderr[-1500:])
finally:
    subprocess.run(["git", "-C", "/repo", "checkout", "--", f])
