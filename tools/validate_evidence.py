#!/usr/bin/env python3
import json, sys, glob, jsonschema
schema = json.load(open("/root/.vp/EVIDENCE.schema.json"))
bad = 0
for f in sorted(glob.glob("/verif/evidence/*.json")):
    try:
        jsonschema.validate(json.load(open(f)), schema)
    except Exception as e:
        bad += 1
        print("INVALID", f, str(e)[:200])
print("checked", len(glob.glob("/verif/evidence/*.json")), "files,", bad, "invalid")
sys.exit(1 if bad else 0)
