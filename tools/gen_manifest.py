#!/usr/bin/env python3
"""Regenerates /verif/MANIFEST.json from the table below and validates it."""
import json, sys, os
ROOT = os.path.dirname(os.path.dirname(os.path.abspath(__file__)))

# id -> (engine, technique, level text, level note, design ref)
CHECKS = {}
def add(i, engine, technique, text, note, ref=None):
    CHECKS[i] = dict(engine=engine, technique=technique, text=text, note=note, ref=ref or f"DESIGN.md §4 {i}")

add("C25", "corepbt", "proptest stateful histories vs line-based reference model of the indentation rules; shrinking to minimal history",
    "Bounded random search (60k histories quick, 3M thorough) over push_str/push_str_literal/write!/indent/deindent with fragments that split and span lines; oracle = text preservation modulo leading whitespace + independent line-based depth model + probe line. Finds deviations on small histories quickly; cannot prove absence.",
    "Newlines are \\n only; `//` always denotes a comment; unbalanced `}` at depth 0 is outside the domain; four fragment-boundary shapes are listed known findings and excluded by construction.")
add("C26", "corepbt", "proptest stateful histories vs set model",
    "Random insert/tmp histories over a colliding alphabet (base+digits) compared against a set model after every step; 100k histories quick.",
    "One Ns per history; names are arbitrary strings.")
add("C27", "corepbt", "proptest over package sets parsed by wit-parser; injectivity oracle",
    "Random sets of 2..5 packages in one namespace (versions with pre-release/build metadata, version-like name suffixes) built into a real Resolve; oracle = name_package_module injective on the set.",
    "Sets are built through WIT text so only what wit-parser accepts is explored; two collision root causes are listed known findings (tolerated by exact signature).")
add("C34", "corepbt", "proptest over generated files with oracle by construction; StringList metamorphic equality",
    "Random files mixing marker lines, blank lines, code and later marker lines for four comment markers; expected table known by construction. StringList string form vs list form compared directly and through TOML.",
    "config.rs is compiled from /repo's working tree via #[path] (the module is private); TOML values limited to ints, bools, literal strings and string arrays.")

add("C24", "rtpbt", "proptest stateful histories vs allocation model + tracking global allocator",
    "Random alloc/realloc/free/Cleanup histories against the real rt::cabi_realloc and rt::Cleanup; model of (ptr,size,align,contents); a tracking #[global_allocator] validates the layout of every realloc/dealloc and leak-freedom at the end of each history.",
    "cabi_realloc is reached natively through the verif cfg (hook 2); pointer width 8; System allocator instead of the wasm one; allocation failure is not explored.")

add("C01", "abisim", "proptest over (type, value, P, canon mode) ; recording Bindgen + interpreter vs independent reference canonical ABI",
    "wit_bindgen_core::abi is run with a recording Bindgen; the recorded instruction stream (with nested blocks) is interpreted over concrete values and a guarded byte memory and compared with an independent reference ABI: lower_to_memory vs spec load (and no stray writes), spec store vs lift_from_memory, lower_flat vs spec flat values bit-for-bit, flat lift through the export glue. 20k generated cases quick (both pointer widths, three canonical-list modes) plus constructed boundary cases (flags at word boundaries, 15/16/17 flats, all payload-type pairs).",
    "Instruction semantics are those documented on abi::Instruction (implemented in harness/abisim/src/sim.rs); the reference ABI (harness/refabi) is written from the spec digest in DESIGN.md App. D; zero-member flags only checked for no-panic; for P=8 32-bit payloads joined into 64-bit pointer-sized slots are compared modulo upper bits.")
add("C02", "abisim", "proptest over function signatures (constructed to hit the 16/4/1 flat limits) ; interpreted call glue with mock callee vs reference flattening",
    "For each generated signature the glue emitted by abi::call is interpreted with a mock core callee / mock implementation for (GuestImport,Lower,sync), (GuestExport,Lift,sync), (GuestExportAsync,Lift,async), (GuestExport,Lift,async), host-side (GuestExport,Lower) and (GuestImport,Lift), and the async-import core signature is compared: canonical core signature, exactly one call / one task.return, arguments and results equal to reference lowering (flat, parameter record, return area), parameter record freed exactly once.",
    "Resolve::wasm_signature is compared with the reference flattening rather than trusted; inconsistent (variant, async) pairs and the Lower direction of the async variants (documented todo!()) are outside the domain and listed in the evidence rule.")
add("C03", "abisim", "proptest over (type, value) with an allocation ledger; interpreted cleanup programs vs ledger and handle walk",
    "Values are lowered by the recorded lowering into a ledgered memory; post_return, deallocate_lists_in_types and deallocate_lists_and_own_in_types (indirect, and direct when <=16 flats) are interpreted; freed multiset must equal the allocated multiset (ptr,size,align), dropped handles must equal the owned handles of the value, guest_export_needs_post_return <=> type contains string/list/map. 40k cases quick incl. a heap-rich generator.",
    "Same trusted base as C01. Three defects found by this check were fixed in /repo (see known-findings.txt `fixed:` lines) and are kept as regression replays.")
add("C04", "abisim", "exhaustive enumeration of slot-type pairs produced by real WIT variants + proptest over bit patterns; round-trip and spec-rule oracles",
    "All ordered pairs of 12 payload shapes (covering every core type incl. pointer, length, pointer-or-i64 at a joined slot) are built as real variants and parsed by wit-parser; for every (case slot, joined slot) pair cast() must exist both ways, produce the destination type, zero-extend/reinterpret on lowering, wrap/reinterpret on lifting and round-trip bit-for-bit on edge+random patterns for P in {4,8}; the same variants run through the full lowering/lifting pipeline against the reference ABI. Random 2..4-case variants extend this.",
    "Bitcast names carry their documented meaning; 2^32/2^64 domains are sampled (edges + random), not symbolically covered; per-backend cast emitters (Rust/C/...) are NOT executed by this check (Engine D would; not built) — it decides the shared cast table and pipeline only.")

add("C16", "genrun", "constructive world generator (choice tape, proptest-shrunk) x 8 generators in-process with panic capture; corpus sweep; per-backend exclusions by construction",
    "18k generated worlds per quick run (1..3 packages, `use` chains, every type constructor in every position, resources, async, futures/streams, error-context, world-level items, adversarial names and docs), each parsed by wit-parser and validated as a component type, run through a (backend, option variant) drawn from crates/test's variant lists; plus the whole tests/codegen corpus x all backends x all variants. Oracle: no panic. Declared exclusions are transcribed from crates/test should_fail_verify and applied by construction; six genuine panics found so far are listed known findings (excluded by construction, each kept alive by a minimal witness), two were fixed.",
    "File-name exclusions are mapped to the WIT feature the file exercises; error-context is treated as part of the async proposal for C++/D; generators run in-process through the same clap Opts as the CLI; only panics count, returned errors do not.")

add("C15", "genrun", "generated worlds + corpus x all backends/variants; metamorphic oracle: repeated generation (3 threads with distinct hash seeds, and separate CLI processes) must give byte-identical file sets; --check from another process must succeed",
    "In-process tier: ~6k generated worlds + the corpus x every backend/variant, each generated three times on three threads (std RandomState differs per thread and per map) and compared byte for byte. Process tier: the CLI built from /repo's working tree is run in separate processes on a sample of corpus files and generated worlds (x all 8 backends), outputs compared and `--check` run from a third process. Found and fixed three nondeterminism defects (MoonBit FFI helper order, two C# orderings); regression worlds are re-run 4x3 times every run.",
    "Hash-order nondeterminism only shows with some probability per run, hence repeated runs; ASLR-dependent behaviour is only covered by the (smaller) process tier; `--check` in place is not asserted for C++/D (they read the out-dir).")

add("C33", "genrun", "generated worlds x generated per-file mutation plans; metamorphic oracle (a writing run into a byte copy changes nothing <=> --check succeeds); snapshot invariants",
    "The CLI built from /repo writes bindings for a generated world into a directory; a generated plan mutates files (delete, flip byte, append, LF->CRLF, binary, truncate, extra file); `--check` must succeed exactly when a writing run into a byte copy would change nothing, must leave names/bytes/mtimes untouched, must not create files elsewhere, and must attribute the first stale file to line endings exactly when it differs only in line endings. 600 process-level cases quick, all 8 backends.",
    "The oracle uses the same CLI binary in write mode (so generator statefulness such as C++/D reading the out-dir is handled); only the first stale file's message is judged, as the CLI stops there.")

add("C29", "genrun", "generated worlds with adversarial doc comments -> Markdown generator; HTML tag scan (link nesting, href/id resolution) and verbatim-substring oracle over every doc line",
    "20k generated worlds per quick run (docs on worlds, interfaces, types, fields, cases, functions with braces, `//`, HTML, markdown metacharacters, unique tokens) plus the corpus: the .html must not open an <a> inside an <a>, every href=\"#x\" needs an id=\"x\"; every non-blank doc line of every world-reachable item must occur verbatim in the .md. Found and fixed: exported interfaces lost their docs.",
    "Doc comments generated here contain no links of their own; text is compared modulo surrounding whitespace, so indentation effects of doc text are not judged (the property allows whitespace changes).")

add("C30", "genrun", "generated multi-package worlds x {sync, --async=all} -> MoonBit generator; structural oracle over all moon.pkg.json files and @alias. qualifiers",
    "6k generated worlds per quick run plus the corpus, both option variants: every generated moon.pkg.json is parsed; aliases must be unique per package with one alias per imported package, project-internal import paths must name generated package directories, every `@alias.` used in a package's sources must be declared, kebab-case WIT names must appear unchanged in package paths.",
    "MoonBit sources are not compiled (no toolchain): qualifiers are extracted with a regex after stripping strings/comments; external `moonbitlang/core/...` paths are assumed to exist.")

add("C17", "genrun", "proptest over --async directive lists; reference model (first matching directive, else WIT default) vs AsyncFilterSet and vs async-ABI names found in Rust/C/MoonBit output",
    "20k directive lists per quick run against a fixed world that has every function kind in both directions (same name imported and exported, interface imported and exported, inline interfaces, resource constructor/method/static, sync and async): is_async for every (function, direction), Display round trip, ensure_all_used; plus 1.5k generator runs (Rust, C, MoonBit; separate or comma-joined --async options) where `[async-lower]..`/`[async-lift]..` names must appear exactly for the selected functions and Rust must reject exactly the lists with a directive that matches nothing.",
    "One fixed world (directive semantics do not depend on type shapes); a directive that is always shadowed is not judged for `unused`; generator output is inspected textually for the canonical async names.")

add("C13", "genrun", "generated worlds + corpus x 7 backends x variants; declarations extracted from generated text -> synthetic core module (wasm-encoder) + world metadata -> wit_component::ComponentEncoder (independent oracle), plus export-name membership in wit-parser's enumeration",
    "For every (world, backend, variant) the import/export declarations (names and core signatures) are extracted with attribute-anchored patterns for C/C++, Rust, Go, C#, MoonBit and D, turned into a synthetic core module with the world's component-type metadata, and wit-component must (1) resolve every import and export against the world (unknown name, wrong core signature, missing required export are errors) and (2) produce a component that validates; every exported name must be one wit-parser assigns to an item of the world. 6k generated worlds + corpus per quick run. Three defects were fixed, eleven signatures (three about --async on sync functions, eight C# ones) are listed known findings; failures of one case are triaged individually so a known one never masks another.",
    "Extraction patterns and the language-type->core-type tables are trusted; unmapped types are counted and judged on names only; imports are only judged if declared (the property says `actually references`); nothing is compiled or executed.")

add("C28", "genrun", "generated worlds with structurally equal / near-equal type clones; independent recursive structural equality and fact walkers vs wit_bindgen_core::Types",
    "10k generated worlds per quick run in near-equal mode (exact copies, renamed/swapped/retyped fields and cases, aliases, use-imports with renames, resources, handles, futures/streams) plus the corpus: for every pair of live types get_representative_type agrees with an independent structural equality; content facts equal an independent walk; borrowed/owned/error facts equal reachability from import params / export params and results / error types; after collect_equal_types every class member carries the union.",
    "may_alias_another_type = always true (the Rust backend's narrower predicate is not modelled); borrowed/owned are judged for named types only, as the analysis records them; wit-parser's LiveTypes supplies the set of live types.")

add("C31", "genrun", "generated worlds + corpus -> C++ generator -> g++ -std=c++20 -fsyntax-only with the repository's helper headers; oracle: no error diagnostics",
    "Every generated .cpp of 64 generated worlds per quick run (restricted to the C++ backend's declared feature set, adversarial names) and of the whole corpus is type-checked with g++ 12 as C++20 against crates/cpp/helper-types and test_headers. The corpus is clean; random worlds expose eleven classes of type errors in the (experimental) C++ backend, listed as known findings by normalised diagnostic.",
    "g++/libstdc++ on x86_64 stands in for wasi-sdk clang++/libc++ (one host-width-only error class is filtered); known findings are keyed by the normalised first diagnostic, so a new defect that produces an already-listed diagnostic class on a random world would be masked (the corpus tier has no tolerated class).")
add("C32", "genrun", "random on-disk package layouts x macro invocation forms; real macro expansion via cargo check; oracle: rustc dep-info lists every file wit-parser reads",
    "40 random layouts per quick run (single file, directory, deps/ folders with directory and single-file dependencies used or unused, several ordered paths, inline, inline+path(s)) are compiled as modules of one crate, plus three crates for the default `wit/` directory forms; rustc's dep-info must list every WIT file that wit_parser::Resolve::push_path reads for the layout.",
    "Dependency tracking is observed through rustc's .d file; the set of files read comes from wit-parser's PackageSourceMap; only importing worlds are used (the property is about file tracking, not codegen).")

add("C12", "genrun", "generated worlds + corpus x C option variants -> clang --target=wasm32 + wasm-ld with the generated component-type object -> wit_component::ComponentEncoder (validate) -> decode and compare with the requested world",
    "320 cases per quick run (whole tests/codegen corpus x {default, --no-sig-flattening, utf16, autodrop, --async=all where not excluded by crates/test/src/c.rs} + generated worlds with C/C++ keywords, generator temporaries and names equal across interfaces): every generated .c is compiled with -Werror=implicit-function-declaration -Werror=incompatible-pointer-types for wasm32, linked with <world>_component_type.o, encoded, validated, decoded; exports must equal the world's exports with identical function types, imports must be a subset, and every core export must be assigned to an item of the world.",
    "clang-14 for wasm32-unknown-unknown with a small libc shim (harness/cshim) stands in for wasi-sdk; unresolved imports are left to the encoder. The listed C13 finding (async ABI forced on sync function types) is recognised at the validation step.")
add("C09", "genrun", "generated worlds + corpus + a sweep of every adversarial name in every position x Rust option variants x editions {2021, 2024} -> `--stubs` bindings built as no_std cdylibs for wasm32-unknown-unknown (cargo -Zbuild-std=core,alloc, one batch per run) -> wit_component::ComponentEncoder (validate) -> decode and compare with the requested world",
    "76 builds per quick run (14 corpus files, 26 generated worlds, 9 name-sweep worlds covering ~200 keywords/prelude names/temporaries as function, parameter, record, field, case and interface names, 27 witnesses of listed findings and fixed defects), 720 per thorough run. Oracle: rustc succeeds, the component validates, it exports exactly the world's exports with identical function types, imports a subset, and every core export is assigned to an item of the world.",
    "std is not available for wasm32 in this sandbox (no dlmalloc source), so the HashMap map type is not built and a bump allocator/panic handler are supplied; stub bodies call no imports, so imports are a subset check. 14 root causes are listed as known findings and excluded by construction (see known-findings.txt); 13 further defects found by this check are fixed in /repo.")

add('C18', "asyncsim", 'stateful scenarios (guest programs x host schedules, proptest-shrunk) against a mock component-model host; host-side registration invariants',
    '300k scenarios per flavour per quick run with streams, futures and async imports in one or two tasks, operations awaited / cancelled / dropped after one poll with host completions queued in between, operations started by one task and completed by another, EVENT_CANCEL at generated points; oracle: no cancel/drop while joined, no event for an unregistered waitable (runtime panics), nothing joined, no set, handle, heap block or list buffer alive once every task and value is gone.',
    "The canonical built-ins are provided by a mock host written from the component-model async definitions (native, 64-bit) through the verif hook in extern_wasm!; traps are recorded as violations. Two runtime flavours are run by every check: without `async-spawn` (the task's own waker reaches guest futures; evidence/<ID>-nospawn.json) and with all features. Scenarios run one at a time (the runtime has process-wide state). A process abort (panic inside an extern C callback) is caught by a SIGABRT handler that saves the scenario and reports the violation.")
add('C19', "asyncsim", 'stateful scenarios against a mock host with an item ledger; per-operation differential oracle',
    '300k scenarios per flavour: write / write_all / write_one / read / next / collect / futures::Stream adapter on streams with canonical (u8) and lifted payloads (each lowered value owns a simulated list buffer), host peers that take/give partial amounts, drop, and race completion with cancellation; oracle: the values and counts every operation reports equal what the host transferred, in order; untransferred values come back; every list buffer is released exactly once; no leak.',
    "The canonical built-ins are provided by a mock host written from the component-model async definitions (native, 64-bit) through the verif hook in extern_wasm!; traps are recorded as violations. Two runtime flavours are run by every check: without `async-spawn` (the task's own waker reaches guest futures; evidence/<ID>-nospawn.json) and with all features. Scenarios run one at a time (the runtime has process-wide state). A process abort (panic inside an extern C callback) is caught by a SIGABRT handler that saves the scenario and reports the violation.")
add('C20', "asyncsim", 'stateful scenarios against a mock host; outcome-differential oracle on future write/read/cancel/drop',
    "300k scenarios per flavour over future creation, write, read, cancel and drop of either end or of in-flight operations with host-chosen rendezvous order, reader drops and cancel/complete races, payloads with and without heap data; oracle: exactly one value (the written one or the default) reaches a live reader, the writable end is never dropped first, cancel outcomes equal the host's.",
    "The canonical built-ins are provided by a mock host written from the component-model async definitions (native, 64-bit) through the verif hook in extern_wasm!; traps are recorded as violations. Two runtime flavours are run by every check: without `async-spawn` (the task's own waker reaches guest futures; evidence/<ID>-nospawn.json) and with all features. Scenarios run one at a time (the runtime has process-wide state). A process abort (panic inside an extern C callback) is caught by a SIGABRT handler that saves the scenario and reports the violation.")
add('C21', "asyncsim", 'stateful scenarios with an instrumented Subtask implementation against a mock subtask table',
    '300k scenarios per flavour: async import calls that return STARTING / STARTED / RETURNED at once, progress driven by the host schedule, awaited or dropped after one poll with a status update queued in between, cancelled tasks; oracle: parameters are alive when the callee starts, params_dealloc_lists xor params_dealloc_lists_and_own run exactly once according to the final status, results lifted once, subtask.drop exactly once and only when resolved, subtask.cancel only while in progress.',
    "The canonical built-ins are provided by a mock host written from the component-model async definitions (native, 64-bit) through the verif hook in extern_wasm!; traps are recorded as violations. Two runtime flavours are run by every check: without `async-spawn` (the task's own waker reaches guest futures; evidence/<ID>-nospawn.json) and with all features. Scenarios run one at a time (the runtime has process-wide state). A process abort (panic inside an extern C callback) is caught by a SIGABRT handler that saves the scenario and reports the violation.")
add('C22', "asyncsim", 'stateful scenarios over task bodies (spawn, join, yield, sleep, imports, streams, futures) x event sequences x {start_task/callback, block_on}',
    "300k scenarios per flavour; oracle on every callback return: EXIT only with nothing joined (voluntary exits), WAIT only on the task's own live non-empty set with the task state stored in the context slot, context slot empty while a callback runs and after exit, EVENT_CANCEL answered with EXIT, the root future's destructor guard runs exactly once, no leak afterwards.",
    "The canonical built-ins are provided by a mock host written from the component-model async definitions (native, 64-bit) through the verif hook in extern_wasm!; traps are recorded as violations. Two runtime flavours are run by every check: without `async-spawn` (the task's own waker reaches guest futures; evidence/<ID>-nospawn.json) and with all features. Scenarios run one at a time (the runtime has process-wide state). A process abort (panic inside an extern C callback) is caught by a SIGABRT handler that saves the scenario and reports the violation.")
add('C23', "asyncsim", 'stateful two-task scenarios built around sleep/wake pairs; unit-stream log of the mock host',
    '300k scenarios per flavour: one task sleeps on a Rust-level event, another wakes it once or several times, before, while or after it sleeps, with cancellation of either task; oracle: wake of a sleeping task writes exactly one unit item that completes the pending wakeup read (the runtime asserts COMPLETED(1)); the wakeup read is never cancelled while joined, never left in flight when its end is dropped; the sleeper finishes its program.',
    "The canonical built-ins are provided by a mock host written from the component-model async definitions (native, 64-bit) through the verif hook in extern_wasm!; traps are recorded as violations. Two runtime flavours are run by every check: without `async-spawn` (the task's own waker reaches guest futures; evidence/<ID>-nospawn.json) and with all features. Scenarios run one at a time (the runtime has process-wide state). A process abort (panic inside an extern C callback) is caught by a SIGABRT handler that saves the scenario and reports the violation.")

add('C05', "genrun", 'generated proxy worlds x random values x Rust option variants; native execution against an independent reference canonical ABI (refabi, P = 8); differential oracle on every value in both directions',
    '42 worlds per quick run (700 thorough), 1..3 functions each, 3 random value sets per function, over all WIT value types nested to depth 3 (scalars, strings, lists, options, results, tuples, records, variants, enums, flags of 1..32 members, maps, fixed-length lists; more than 16 flat parameters and multi-value results included) x {default, borrowing, --std-feature, merge-equal, raw-strings, HashMap, borrowing+merge-equal}. The host lowers parameters into the export call, lifts them from the import call the guest makes, lowers the import result and lifts the export result; both must equal what was sent, the import must be called once with the canonical arity.',
    "Native x86-64 execution (the generated Rust is pointer-width agnostic): one shared object per world, import declarations rewritten into calls of a host callback, exports reached through trampolines whose signatures come from the reference ABI. The guest side is a pure forwarder (export -> import of the same name), so the only code between the host's two observations is generated code. Anonymous option/result/tuple parameters are wrapped into one-field records (results are not); resources, futures and streams are out of these worlds.")
add('C06', "genrun", 'same executions as C05 with a tracking allocator inside the guest object; heap-balance oracle per call',
    'Same worlds, values and variants as C05. The guest object carries a tracking global allocator: after every export call and its post-return the set of live heap blocks must equal the set before the call (nothing leaked from parameters the host allocated with cabi_realloc, import results, lowered import arguments, or the returned value), and no block may be freed twice, with a foreign pointer or a wrong size.',
    "Native x86-64 execution (the generated Rust is pointer-width agnostic): one shared object per world, import declarations rewritten into calls of a host callback, exports reached through trampolines whose signatures come from the reference ABI. The guest side is a pure forwarder (export -> import of the same name), so the only code between the host's two observations is generated code. Anonymous option/result/tuple parameters are wrapped into one-field records (results are not); resources, futures and streams are out of these worlds.")

add('C10', "genrun", 'generated proxy worlds x random values x C option variants; native execution against an independent reference canonical ABI (refabi, P = 8); differential oracle on every value in both directions',
    '120 worlds per quick run (2500 thorough), 1..3 functions each, 3 random value sets per function over scalars, strings, lists, options, results, tuples, records, variants, enums and flags nested to depth 3 (more than 16 flat parameters and multi-value results included) x {default, --no-sig-flattening, --autodrop-borrows=yes}; the host lowers parameters into the export call, lifts them from the import call the guest makes, lowers the import result and lifts the export result; both must equal what was sent.',
    'Native x86-64 execution with clang: the generated w.c is compiled with malloc/free/realloc redirected into a ledger, a generated glue file defines the import declarations (calls of the host callback), forwards every exported function to the imported one of the same name and releases the owned arguments with the generated *_free helpers (crates/c/README.md), and provides export trampolines with signatures derived from the reference ABI. utf16, maps, fixed-length lists and resources are outside these worlds (the reference host speaks utf8; the C backend declares maps/fixed-length lists unsupported; resource lifetimes belong to C07-style checks).')
add('C11', "genrun", 'same executions as C10 with a malloc/free ledger inside the guest object; heap-balance oracle per call',
    'Same worlds, values and variants as C10. After every export call and its post-return the ledger must hold exactly the blocks it held before: post-return frees the returned value, import arguments stay with the caller, the generated *_free helpers (called by the forwarding implementation on its owned arguments) release exactly the owned memory; a free of anything that is not a live block is counted as misuse.',
    'Native x86-64 execution with clang: the generated w.c is compiled with malloc/free/realloc redirected into a ledger, a generated glue file defines the import declarations (calls of the host callback), forwards every exported function to the imported one of the same name and releases the owned arguments with the generated *_free helpers (crates/c/README.md), and provides export trampolines with signatures derived from the reference ABI. utf16, maps, fixed-length lists and resources are outside these worlds (the reference host speaks utf8; the C backend declares maps/fixed-length lists unsupported; resource lifetimes belong to C07-style checks).')

add('C14', "genrun", "exhaustive (8/16-bit) and boundary+random (32/64-bit, float, char) enumeration of core values through every backend's scalar conversions: native execution for Rust, C and C++, interpretation of the emitted conversion expressions for MoonBit, Go, D and C#; oracle = canonical ABI lift/lower written independently",
    '~17 million evaluations per quick run: for each of u8, s8, u16, s16, u32, s32, u64, s64, f32, f64, char, bool and each backend flavour {Rust, C, C --no-sig-flattening, C++ (native), MoonBit, Go, D, C# (interpreted)} every input (all 2^8 / 2^16 low patterns under 3..5 high-bit patterns; single-bit, all-but-one-bit and low-mask patterns, float specials and 50k random patterns for wide types; boundary and 20k random valid scalars for char; 0/1 for bool) is lifted and lowered through the import and the export side; every observed core value must equal lower(lift(input)) of the canonical ABI, and for the interpreted backends the lifted value itself must be the canonical one.',
    'C#, Go, MoonBit and D have no toolchain in the sandbox, so their four conversion expressions per type are extracted from the generated source and interpreted (integer conversions value-preserving modulo 2^n; D byte signed, C# byte unsigned; MoonBit Int wraps); an expression the interpreter cannot read makes the check inconclusive (exit 2). Natively executed backends are observed only through the round trip (a typed i8/int8_t cannot hold an out-of-range value). Non-canonical booleans are not fed (conforming hosts lower to 0/1; the Rust runtime asserts it).')

PENDING_REASON = "check not built yet in this session (planned in DESIGN.md §4); not claimed until it exists and passes its sensitivity runs"

def main():
    props = [json.loads(l) for l in open(os.path.join(ROOT, "properties.jsonl"))]
    checks = []
    na = []
    for p in props:
        i = p["id"]
        if i in CHECKS:
            c = CHECKS[i]
            checks.append({
                "property_id": i,
                "quick_cmd": f"./check {i} quick",
                "thorough_cmd": f"./check {i} thorough",
                "evidence_file": f"/verif/evidence/{i}.json",
                "replay_cmd_template": f"./check {i} --replay {{path}}",
                "engine": c["engine"],
                "level_claimed": {"category": "exploration", "text": c["text"], "design_ref": c["ref"]},
                "level_note": c["note"],
                "technique": c["technique"],
            })
        else:
            na.append({"property_id": i, "reason": NA.get(i, PENDING_REASON)})
    m = {
        "version": 1,
        "setup_cmd": "./tools/setup.sh",
        "hooks": {
            "guard": "--cfg bytecodealliance_wit_bindgen_verif",
            "enable": "harness/.cargo/config.toml sets rustflags = [\"--cfg\", \"bytecodealliance_wit_bindgen_verif\"] for every harness build",
            "baseline_off_cmd": "cd /repo && cargo test --workspace --no-fail-fast --offline",
            "source_commits": HOOK_COMMITS,
            "add_only": False,
        },
        "engines": ENGINES,
        "checks": checks,
        "not_applicable": na,
        "notes": "All checks are property-based / fuzzing checks driven by proptest from harness binaries (see DESIGN.md). ./check <ID> <tier> rebuilds the harness against /repo's working tree. Exit 2 = harness error/inconclusive.",
    }
    out = os.path.join(ROOT, "MANIFEST.json")
    json.dump(m, open(out, "w"), indent=1)
    open(out, "a").write("\n")
    try:
        import jsonschema
        jsonschema.validate(m, json.load(open("/root/.vp/MANIFEST.schema.json")))
        print("MANIFEST.json valid;", len(checks), "checks,", len(na), "not claimed")
    except ImportError:
        print("jsonschema not importable here; wrote MANIFEST.json without validation")

NA = {}
HOOK_COMMITS = ["b827c12", "a6f2383"]
ENGINES = [
    {"name": "genrun", "path": "harness/genrun", "serves_properties": ["C05", "C06", "C09", "C10", "C11", "C12", "C13", "C14", "C15", "C16", "C17", "C28", "C29", "C30", "C31", "C32", "C33"], "kind_free_text": "tape-driven constructive WIT world generator (harness/witgen) + in-process drivers for all eight generators with panic capture and output collection"},
    {"name": "abisim", "path": "harness/abisim", "serves_properties": ["C01", "C02", "C03", "C04"], "kind_free_text": "recording wit_bindgen_core::abi::Bindgen + instruction interpreter + independent reference canonical ABI (harness/refabi), driven by proptest"},
    {"name": "asyncsim", "path": "harness/asyncsim", "serves_properties": ["C18", "C19", "C20", "C21", "C22", "C23"], "kind_free_text": "the real Rust async guest runtime executed natively (verif hook) against a mock component-model async host; guest programs + host schedules generated by proptest; second flavour harness/asyncsim-nospawn built from the same sources without async-spawn"},
    {"name": "rtpbt", "path": "harness/rtpbt", "serves_properties": ["C24"], "kind_free_text": "proptest histories against wit_bindgen::rt allocation entry points with a tracking global allocator"},
    {"name": "corepbt", "path": "harness/corepbt", "serves_properties": ["C17", "C25", "C26", "C27", "C28", "C34"], "kind_free_text": "proptest harnesses over public items of wit-bindgen-core / wit-bindgen rt / wit-bindgen-test"},
]
if __name__ == "__main__":
    main()
