#!/usr/bin/env python3
"""Regenerates /verif/MANIFEST.json from the table below and validates it."""
import json, sys, os
ROOT = os.path.dirname(os.path.dirname(os.path.abspath(__file__)))

# id -> (engine, technique, level text, level note, design ref)
CHECKS = {}
def add(i, engine, technique, text, note, ref=None):
    CHECKS[i] = dict(engine=engine, technique=technique, text=text, note=note, ref=ref or f"DESIGN.md §4 {i}")

add("C25", "corepbt", "proptest stateful histories vs line-based reference model of the indentation rules; shrinking to minimal history",
    "Bounded random search (60k histories quick, 3M thorough) over push_str/push_str_literal/write!/indent/deindent with fragments that split and span lines; oracle = text preservation modulo leading whitespace + independent line-based depth model + probe line. Finds deviations on small histories quickly; cannot prove absence.",
    "Newlines are \\n only; `//` always denotes a comment; unbalanced `}` at depth 0 is outside the domain; four fragment-boundary shapes are listed known findings and excluded by construction.")
add("C26", "corepbt", "proptest stateful histories vs set model",
    "Random insert/tmp histories over a colliding alphabet (base+digits) compared against a set model after every step; 100k histories quick.",
    "One Ns per history; names are arbitrary strings.")
add("C27", "corepbt", "proptest over package sets parsed by wit-parser; injectivity oracle",
    "Random sets of 2..5 packages in one namespace (versions with pre-release/build metadata, version-like name suffixes) built into a real Resolve; oracle = name_package_module injective on the set.",
    "Sets are built through WIT text so only what wit-parser accepts is explored; two collision root causes are listed known findings (tolerated by exact signature).")
add("C34", "corepbt", "proptest over generated files with oracle by construction; StringList metamorphic equality",
    "Random files mixing marker lines, blank lines, code and later marker lines for four comment markers; expected table known by construction. StringList string form vs list form compared directly and through TOML.",
    "config.rs is compiled from /repo's working tree via #[path] (the module is private); TOML values limited to ints, bools, literal strings and string arrays.")

add("C24", "rtpbt", "proptest stateful histories vs allocation model + tracking global allocator",
    "Random alloc/realloc/free/Cleanup histories against the real rt::cabi_realloc and rt::Cleanup; model of (ptr,size,align,contents); a tracking #[global_allocator] validates the layout of every realloc/dealloc and leak-freedom at the end of each history.",
    "cabi_realloc is reached natively through the verif cfg (hook 2); pointer width 8; System allocator instead of the wasm one; allocation failure is not explored.")

PENDING_REASON = "check not built yet in this session (planned in DESIGN.md §4); not claimed until it exists and passes its sensitivity runs"

def main():
    props = [json.loads(l) for l in open(os.path.join(ROOT, "properties.jsonl"))]
    checks = []
    na = []
    for p in props:
        i = p["id"]
        if i in CHECKS:
            c = CHECKS[i]
            checks.append({
                "property_id": i,
                "quick_cmd": f"./check {i} quick",
                "thorough_cmd": f"./check {i} thorough",
                "evidence_file": f"/verif/evidence/{i}.json",
                "replay_cmd_template": f"./check {i} --replay {{path}}",
                "engine": c["engine"],
                "level_claimed": {"category": "exploration", "text": c["text"], "design_ref": c["ref"]},
                "level_note": c["note"],
                "technique": c["technique"],
            })
        else:
            na.append({"property_id": i, "reason": NA.get(i, PENDING_REASON)})
    m = {
        "version": 1,
        "setup_cmd": "./tools/setup.sh",
        "hooks": {
            "guard": "--cfg bytecodealliance_wit_bindgen_verif",
            "enable": "harness/.cargo/config.toml sets rustflags = [\"--cfg\", \"bytecodealliance_wit_bindgen_verif\"] for every harness build",
            "baseline_off_cmd": "cd /repo && cargo test --workspace --no-fail-fast --offline",
            "source_commits": HOOK_COMMITS,
            "add_only": False,
        },
        "engines": ENGINES,
        "checks": checks,
        "not_applicable": na,
        "notes": "All checks are property-based / fuzzing checks driven by proptest from harness binaries (see DESIGN.md). ./check <ID> <tier> rebuilds the harness against /repo's working tree. Exit 2 = harness error/inconclusive.",
    }
    out = os.path.join(ROOT, "MANIFEST.json")
    json.dump(m, open(out, "w"), indent=1)
    open(out, "a").write("\n")
    try:
        import jsonschema
        jsonschema.validate(m, json.load(open("/root/.vp/MANIFEST.schema.json")))
        print("MANIFEST.json valid;", len(checks), "checks,", len(na), "not claimed")
    except ImportError:
        print("jsonschema not importable here; wrote MANIFEST.json without validation")

NA = {}
HOOK_COMMITS = ["b827c12", "a6f2383"]
ENGINES = [
    {"name": "rtpbt", "path": "harness/rtpbt", "serves_properties": ["C24"], "kind_free_text": "proptest histories against wit_bindgen::rt allocation entry points with a tracking global allocator"},
    {"name": "corepbt", "path": "harness/corepbt", "serves_properties": ["C17", "C25", "C26", "C27", "C28", "C34"], "kind_free_text": "proptest harnesses over public items of wit-bindgen-core / wit-bindgen rt / wit-bindgen-test"},
]
if __name__ == "__main__":
    main()
